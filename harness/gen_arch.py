"""Random architecture trees shared by C25 / C26 / C27: Python tree <-> accelforge Arch <-> Coq forest."""
from fractions import Fraction

KINDS = ["KMem", "KToll", "KCont", "KComp"]


def random_tree(rng, max_leaves=14, max_depth=4, fanouts=(1, 1, 2, 3, 4, 5)):
    """tree = list of nodes; node = ('leaf', kind, id, fanout) | ('hier', fork, [nodes]).  At least one compute."""
    counter = [0]
    budget = [rng.randint(2, max_leaves)]

    def leaf(kind=None):
        k = kind or rng.choice(["KMem", "KMem", "KToll", "KCont", "KComp"])
        i = counter[0]
        counter[0] += 1
        budget[0] -= 1
        return ("leaf", k, i, rng.choice(fanouts))

    def forest(depth):
        out = []
        n = rng.randint(1, 4)
        for _ in range(n):
            if budget[0] <= 0:
                break
            r = rng.random()
            if depth < max_depth and r < 0.3:
                sub = forest(depth + 1)
                if sub:
                    out.append(("hier", rng.random() < 0.6, sub))
            else:
                out.append(leaf())
        return out

    t = forest(1)
    if not t:
        t = [leaf("KMem")]
    if not any(l[1] == "KComp" for l in leaves(t)):
        t.append(leaf("KComp"))
    return t


def leaves(t):
    out = []
    for n in t:
        if n[0] == "leaf":
            out.append(n)
        else:
            out += leaves(n[2])
    return out


def name_of(n):
    return f"N{n[2]}"


def to_coq(t):
    s = "FNil"
    for n in reversed(t):
        if n[0] == "leaf":
            a = f"(ALeaf (mkleaf {n[1]} {n[2]}%nat {n[3]}%Z))"
        else:
            a = f"(AHier {'true' if n[1] else 'false'} {to_coq(n[2])})"
        s = f"(FCons {a} {s})"
    return s


def to_arch(t, af, values=None):
    """values: id -> dict(area, area_scale, leak, leak_scale, npar, energy_scale, thr_scale, actions={name:(e,es,t,ts)})"""
    A = af["arch"]

    def act(name, v):
        e, es, th, ts = v
        return {"name": name, "energy": e, "energy_scale": es, "throughput": th, "throughput_scale": ts}

    def build(nodes):
        out = []
        for n in nodes:
            if n[0] == "hier":
                cls = A.Fork if n[1] else A.Hierarchical
                out.append(cls(nodes=build(n[2])))
                continue
            _, kind, i, fo = n
            v = (values or {}).get(i) or dict(area=1, area_scale=1, leak=1, leak_scale=1, npar=1, energy_scale=1, thr_scale=1,
                                               actions={"read": (1, 1, 1, 1), "write": (1, 1, 1, 1), "compute": (1, 1, 1, 1)})
            spatial = [{"name": f"d{i}", "fanout": fo}] if fo != 1 else []
            common_kw = dict(name=name_of(n), spatial=spatial)
            cost_kw = dict(area=v["area"], area_scale=v["area_scale"], leak_power=v["leak"], leak_power_scale=v["leak_scale"],
                           n_parallel_instances=v["npar"], energy_scale=v["energy_scale"], throughput_scale=v["thr_scale"])
            if kind == "KMem":
                out.append(A.Memory(size=1000, actions=[act("read", v["actions"]["read"]), act("write", v["actions"]["write"])], **common_kw, **cost_kw))
            elif kind == "KToll":
                out.append(A.Toll(direction="up_and_down", actions=[act("read", v["actions"]["read"])], **common_kw, **cost_kw))
            elif kind == "KCont":
                out.append(A.Container(**common_kw))
            else:
                out.append(A.Compute(actions=[act("compute", v["actions"]["compute"])], **common_kw, **cost_kw))
        return out

    return A.Arch(nodes=build(t))


def load():
    import common
    common.setup_impl_path()
    import accelforge.frontend.arch as arch
    from accelforge.frontend.spec import Spec
    from accelforge.frontend.workload import Workload
    return {"arch": arch, "Spec": Spec, "Workload": Workload}


def simple_workload(af):
    return af["Workload"](rank_sizes={"M": 4, "K": 4, "N": 4}, bits_per_value={"All": 8},
                          einsums=[{"name": "Matmul", "tensor_accesses": [
                              {"name": "A", "projection": ["m", "k"]}, {"name": "B", "projection": ["k", "n"]},
                              {"name": "C", "projection": ["m", "n"], "output": True}]}])
