From Coq Require Import ZArith List Bool.
Import ListNotations.
From AF Require Import C24.Model.
Open Scope Z_scope.
(* I[H: 2*p + r], p < 3, r < 2: image {0..5} is a box of 6 points *)
Example ex_conv : tensor_size 1 (data_space [([([2; 1], 0)], [3%nat; 2%nat])]) = Some 6.
Proof. vm_compute. reflexivity. Qed.
(* I[H: 2*p], p < 3: image {0,2,4} is not a box: error, not 5 *)
Example ex_strided : tensor_size 1 (data_space [([([2], 0)], [3%nat])]) = None.
Proof. vm_compute. reflexivity. Qed.
(* I[X: p, Y: p]: diagonal *)
Example ex_diag : tensor_size 2 (data_space [([([1], 0); ([1], 0)], [3%nat])]) = None.
Proof. vm_compute. reflexivity. Qed.
Example ex_halo : (stride ([2; 1], 0) 0, halo ([2; 1], 0) 0 [3%nat; 2%nat]) = (2, 1) /\ (stride ([2; 1], 0) 1, halo ([2; 1], 0) 1 [3%nat; 2%nat]) = (1, 4).
Proof. vm_compute. split; reflexivity. Qed.
